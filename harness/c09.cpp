// C09: scaling is invisible.
//  (A) every scaler on a bare SPxLPBase: scaled entries are exactly ldexp(original, exponents); the *Unscaled getters and
//      unscaleLP() reproduce the original bit for bit.
//  (B) through SoPlex: SCALER(7) x PERSISTENTSCALING(2) x LP: after optimize() every accessor equals the reference model bit
//      for bit, the written LP/MPS file is byte-identical to the one written by a never-scaled object, solution / ray / Farkas
//      pass the exact certificate against the unscaled model; then every reduced-alphabet modification (depth 1 and 2):
//      accessors, file bytes and exact re-optimisation.
//  (C) the long cycle [optimize, SCALER off, optimize, SCALER back] x 12 that crosses the "stop re-scaling" threshold.
#include "vx_history.hpp"
#include "vx_planted.hpp"
using namespace vx;

static std::string g_tmp;
static bool biteq(double a, double b) { return memcmp(&a, &b, sizeof(double)) == 0 || (a == 0 && b == 0); }

static void build_lp(SPxLPBase<double>& lp, const TinyLP& t, SoPlex& owner)
{
   lp.setOutstream(owner.spxout);
   lp.setTolerances(owner._tolerances);
   lp.changeSense(t.maximize ? SPxLPBase<double>::MAXIMIZE : SPxLPBase<double>::MINIMIZE);
   DSVector empty(0);
   for(int j = 0; j < t.n; ++j) lp.addCol(LPCol(t.c[j], empty, t.up[j], t.lo[j]));
   for(int i = 0; i < t.m; ++i)
   {
      DSVector row(t.n + 1);
      for(int j = 0; j < t.n; ++j) if(t.A[i][j] != 0) row.add(j, t.A[i][j]);
      lp.addRow(LPRow(t.lhs[i], row, t.rhs[i]));
   }
}
static const char* SCNAME[] = {"off", "uniequi", "biequi", "geo1", "geo8", "leastsq", "geoequi"};
static SPxScaler<double>* scaler_of(SoPlex& spx, int k)
{
   switch(k)
   {
   case 1: return &spx._scalerUniequi;
   case 2: return &spx._scalerBiequi;
   case 3: return &spx._scalerGeo1;
   case 4: return &spx._scalerGeo8;
   case 5: return &spx._scalerLeastsq;
   case 6: return &spx._scalerGeoequi;
   }
   return nullptr;
}

// (A)
static uint64_t run_bare(const TinyLP& t, int sc, Ctx& c, const std::string* caseName = nullptr)
{
   SoPlex owner;
   quiet(owner);
   SPxLPBase<double> lp;
   build_lp(lp, t, owner);
   SPxScaler<double>* S = scaler_of(owner, sc);
   std::string cs = (caseName ? *caseName : t.str()) + "#" + SCNAME[sc];
   S->scale(lp, true);
   c.count("bare_scalings");
   int n = t.n, m = t.m;
   uint64_t h = 5;
   std::ostringstream o;
   o.precision(17);
   if(lp.isScaled())
   {
      c.count("bare_scaled");
      const DataArray<int>& ce = ((const LPColSetBase<double>&)lp).scaleExp;
      const DataArray<int>& re = ((const LPRowSetBase<double>&)lp).scaleExp;
      bool nontriv = false;
      for(int j = 0; j < n; ++j) if(ce[j] != 0) nontriv = true;
      for(int i = 0; i < m; ++i) if(re[i] != 0) nontriv = true;
      if(nontriv) c.count("bare_nontrivial_exponents");
      for(int i = 0; i < m; ++i)
      {
         h = h * 31 + re[i];
         std::vector<double> dense(n, 0);
         const SVector& r = lp.rowVector(i);
         for(int k = 0; k < r.size(); ++k) dense[r.index(k)] = r.value(k);
         for(int j = 0; j < n; ++j)
            if(!biteq(dense[j], ldexp(t.A[i][j], re[i] + ce[j]))) { o << "scaled A[" << i << "][" << j << "]=" << dense[j] << " != ldexp(" << t.A[i][j] << "," << re[i] + ce[j] << ")"; c.violation(std::string("scaled-entry-not-power-of-two-multiple@") + SCNAME[sc], cs, o.str()); return h; }
         if(t.lhs[i] > -INF && !biteq(lp.lhs(i), ldexp(t.lhs[i], re[i]))) { c.violation(std::string("scaled-side-wrong@") + SCNAME[sc], cs, "lhs " + std::to_string(i)); return h; }
         if(t.rhs[i] < INF && !biteq(lp.rhs(i), ldexp(t.rhs[i], re[i]))) { c.violation(std::string("scaled-side-wrong@") + SCNAME[sc], cs, "rhs " + std::to_string(i)); return h; }
         if((t.lhs[i] <= -INF && lp.lhs(i) > -INF) || (t.rhs[i] >= INF && lp.rhs(i) < INF)) { c.violation(std::string("scaled-infinite-side-became-finite@") + SCNAME[sc], cs, "row " + std::to_string(i)); return h; }
      }
      for(int j = 0; j < n; ++j)
      {
         h = h * 31 + ce[j];
         if(t.lo[j] > -INF && !biteq(lp.lower(j), ldexp(t.lo[j], -ce[j]))) { c.violation(std::string("scaled-bound-wrong@") + SCNAME[sc], cs, "lower " + std::to_string(j)); return h; }
         if(t.up[j] < INF && !biteq(lp.upper(j), ldexp(t.up[j], -ce[j]))) { c.violation(std::string("scaled-bound-wrong@") + SCNAME[sc], cs, "upper " + std::to_string(j)); return h; }
         if((t.lo[j] <= -INF && lp.lower(j) > -INF) || (t.up[j] >= INF && lp.upper(j) < INF)) { c.violation(std::string("scaled-infinite-bound-became-finite@") + SCNAME[sc], cs, "col " + std::to_string(j)); return h; }
         if(!biteq(lp.obj(j), ldexp(t.c[j], ce[j]))) { c.violation(std::string("scaled-objective-wrong@") + SCNAME[sc], cs, "obj " + std::to_string(j)); return h; }
      }
      // unscaled getters
      for(int j = 0; j < n; ++j)
      {
         if(!biteq(lp.objUnscaled(j), t.c[j])) { c.violation(std::string("unscaled-getter:objUnscaled@") + SCNAME[sc], cs, ""); return h; }
         double mx = t.maximize ? t.c[j] : -t.c[j];
         if(!biteq(lp.maxObjUnscaled(j), mx)) { c.violation(std::string("unscaled-getter:maxObjUnscaled@") + SCNAME[sc], cs, ""); return h; }
         double lo = lp.lowerUnscaled(j), up = lp.upperUnscaled(j);
         if((t.lo[j] > -INF) ? !biteq(lo, t.lo[j]) : lo > -INF) { c.violation(std::string("unscaled-getter:lowerUnscaled@") + SCNAME[sc], cs, ""); return h; }
         if((t.up[j] < INF) ? !biteq(up, t.up[j]) : up < INF) { c.violation(std::string("unscaled-getter:upperUnscaled@") + SCNAME[sc], cs, ""); return h; }
         DSVector col(m + 1);
         lp.getColVectorUnscaled(j, col);
         std::vector<double> dense(m, 0);
         for(int k = 0; k < col.size(); ++k) dense[col.index(k)] = col.value(k);
         for(int i = 0; i < m; ++i) if(!biteq(dense[i], t.A[i][j])) { c.violation(std::string("unscaled-getter:getColVectorUnscaled@") + SCNAME[sc], cs, ""); return h; }
      }
      for(int i = 0; i < m; ++i)
      {
         double l = lp.lhsUnscaled(i), r = lp.rhsUnscaled(i);
         if((t.lhs[i] > -INF) ? !biteq(l, t.lhs[i]) : l > -INF) { c.violation(std::string("unscaled-getter:lhsUnscaled@") + SCNAME[sc], cs, ""); return h; }
         if((t.rhs[i] < INF) ? !biteq(r, t.rhs[i]) : r < INF) { c.violation(std::string("unscaled-getter:rhsUnscaled@") + SCNAME[sc], cs, ""); return h; }
         DSVector row(n + 1);
         lp.getRowVectorUnscaled(i, row);
         std::vector<double> dense(n, 0);
         for(int k = 0; k < row.size(); ++k) dense[row.index(k)] = row.value(k);
         for(int j = 0; j < n; ++j) if(!biteq(dense[j], t.A[i][j])) { c.violation(std::string("unscaled-getter:getRowVectorUnscaled@") + SCNAME[sc], cs, ""); return h; }
      }
      lp.unscaleLP();
   }
   // after unscaleLP (or if the scaler decided not to scale): the LP is the original bit for bit
   if(lp.isScaled()) { c.violation(std::string("still-scaled-after-unscale@") + SCNAME[sc], cs, ""); return h; }
   for(int i = 0; i < m; ++i)
   {
      std::vector<double> dense(n, 0);
      const SVector& r = lp.rowVector(i);
      for(int k = 0; k < r.size(); ++k) dense[r.index(k)] = r.value(k);
      for(int j = 0; j < n; ++j) if(!biteq(dense[j], t.A[i][j])) { c.violation(std::string("unscale-not-exact:matrix@") + SCNAME[sc], cs, ""); return h; }
      if(!(biteq(lp.lhs(i), t.lhs[i]) || (t.lhs[i] <= -INF && lp.lhs(i) <= -INF)) || !(biteq(lp.rhs(i), t.rhs[i]) || (t.rhs[i] >= INF && lp.rhs(i) >= INF))) { c.violation(std::string("unscale-not-exact:sides@") + SCNAME[sc], cs, ""); return h; }
   }
   for(int j = 0; j < n; ++j)
   {
      if(!biteq(lp.obj(j), t.c[j])) { c.violation(std::string("unscale-not-exact:objective@") + SCNAME[sc], cs, ""); return h; }
      if(!(biteq(lp.lower(j), t.lo[j]) || (t.lo[j] <= -INF && lp.lower(j) <= -INF)) || !(biteq(lp.upper(j), t.up[j]) || (t.up[j] >= INF && lp.upper(j) >= INF))) { c.violation(std::string("unscale-not-exact:bounds@") + SCNAME[sc], cs, ""); return h; }
      const SVector& col = lp.colVector(j);
      std::vector<double> dense(m, 0);
      for(int k = 0; k < col.size(); ++k) dense[col.index(k)] = col.value(k);
      for(int i = 0; i < m; ++i) if(!biteq(dense[i], t.A[i][j])) { c.violation(std::string("unscale-not-exact:column-storage@") + SCNAME[sc], cs, ""); return h; }
   }
   return h;
}

static std::string file_bytes(const std::string& path)
{
   std::ifstream in(path, std::ios::binary);
   return std::string((std::istreambuf_iterator<char>(in)), std::istreambuf_iterator<char>());
}
// text of the LP as written by `spx` (unscale = true), in format ext
static std::string written(SoPlex& spx, const char* ext)
{
   std::string f = g_tmp + "/w" + std::to_string(getpid()) + ext;
   // the MPS writer throws for an LP with a free row (known finding of C12, nothing to do with scaling): the scaled and the never-scaled object must then both throw
   try { spx.writeFileReal(f.c_str(), nullptr, nullptr, nullptr, true, true); }
   catch(const SPxException& e) { unlink(f.c_str()); return std::string("exception:") + e.what(); }
   std::string s = file_bytes(f);
   unlink(f.c_str());
   return s;
}
static std::string reference_text(const Model& mo, const char* ext)
{
   SoPlex ref;
   quiet(ref);
   ref.setIntParam(SoPlex::SCALER, SoPlex::SCALER_OFF);
   ref.setIntParam(SoPlex::SIMPLIFIER, SoPlex::SIMPLIFIER_OFF);
   load_real(ref, mo.tiny(), 0);
   return written(ref, ext);
}

static std::string judge(int st, double obj, const Classification& cl)
{
   if(cl.hasopt)
   {
      if(st != 1) return "status " + std::to_string(st) + " but optimum " + cl.opt.get_str();
      if(fabs(obj - cl.opt.get_d()) > 1e-6 * (1 + fabs(cl.opt.get_d()))) return "objective " + TinyLP::num(obj) + " != " + cl.opt.get_str();
   }
   else if(st == 1) return std::string("OPTIMAL on ") + cl.name();
   else if(st == 3 && cl.feasible) return "INFEASIBLE on a feasible LP";
   return "";
}

// (B)
// plantedCl / caseName given: medium-size planted LP - its classification is known by construction; after a modification the re-optimised (scaled) object is
// compared with a fresh object holding the final model that never scales (differential oracle instead of basis enumeration)
static uint64_t run_spx(const TinyLP& t, int sc, int ps, int simp, int depth, Ctx& c, const Classification* plantedCl = nullptr, const std::string* caseName = nullptr)
{
   std::string cfgs = std::string("scaler=") + SCNAME[sc] + ",persistent=" + std::to_string(ps) + ",simplifier=" + std::to_string(simp) + (plantedCl ? "+planted" : "");
   std::string cs = (caseName ? *caseName : t.str()) + "#" + std::to_string(sc) + "," + std::to_string(ps) + "," + std::to_string(simp);
   auto setup = [&](SoPlex & spx)
   {
      quiet(spx);
      spx.setIntParam(SoPlex::SCALER, sc);
      spx.setBoolParam(SoPlex::PERSISTENTSCALING, ps != 0);
      spx.setIntParam(SoPlex::SIMPLIFIER, simp ? SoPlex::SIMPLIFIER_INTERNAL : SoPlex::SIMPLIFIER_OFF);
      load_real(spx, t, 0);
   };
   uint64_t h = 3;
   Model mo = Model::from(t);
   XLP x = t.exact();
   Classification cl = plantedCl ? *plantedCl : classify(x);
   {
      SoPlex spx;
      setup(spx);
      spx.optimize();
      c.count("spx_solves");
      if(spx._realLP->isScaled()) c.count("states_with_scaled_stored_lp");
      std::string d = compare_real(spx, mo);
      if(!d.empty()) { c.violation("accessor-differs-after-solve@" + cfgs, cs, d); return h; }
      for(const char* ext : {".lp", ".mps"})
         if(written(spx, ext) != reference_text(mo, ext)) { c.violation(std::string("written-file-differs:") + ext + "@" + cfgs, cs, "file written with scaling active differs from the file of a never-scaled object"); return h; }
      c.count("files_compared", 2);
      RealResult r;
      fetch(spx, r);
      std::string why, rule;
      if(r.status == 1) rule = check_optimal_certificate(x, r, cl, 1e-6, 1e-6, why);
      else if(cl.hasopt) { rule = "finite-optimum-not-solved"; why = "status " + std::to_string(r.status); }
      if(rule.empty() && r.hasFarkas) rule = check_farkas(x, r.farkas, why);
      if(rule.empty() && r.hasRay) rule = check_ray(x, r.ray, why);
      // slack/dual defects of the aggregation postsolve belong to C01/C08; here only what scaling could break
      if(!rule.empty() && !(simp && (rule == "slack-not-activity" || rule == "stationarity-violated")))
         c.violation("solution-not-in-unscaled-space:" + rule + "@" + cfgs, cs, why);
      h = h * 31 + digest(r);
   }
   // modifications while scaling is active
   auto ops1 = alphabet(t.n, t.m, true);
   for(size_t a = 0; a < ops1.size(); ++a)
   {
      if(!is_modification(ops1[a].kind)) continue;
      set_sub(a);
      for(int second = -1; second < (depth >= 2 ? 1 : 0); ++second)
      {
         SoPlex spx;
         setup(spx);
         spx.optimize();
         Model m2 = mo;
         std::vector<Model> alts;
         apply_op(spx, m2, ops1[a], &alts);
         if(!alts.empty() && !compare_real(spx, m2).empty()) m2 = alts[0];
         std::string seq = OPNAME[ops1[a].kind];
         if(second >= 0)
         {
            // second level: optimize in between, then the same kind of operation family again (cheap but crosses a re-scale)
            spx.optimize();
            auto ops2 = alphabet(m2.n(), m2.m(), true);
            const Op& o2 = ops2[(a * 7 + 3) % ops2.size()];
            if(!is_modification(o2.kind)) continue;
            alts.clear();
            apply_op(spx, m2, o2, &alts);
            if(!alts.empty() && !compare_real(spx, m2).empty()) m2 = alts[0];
            seq += std::string(">optimize>") + OPNAME[o2.kind];
         }
         c.count("modification_sequences");
         std::string d = compare_real(spx, m2);
         if(!d.empty()) { c.violation("accessor-differs-after-modification:" + std::string(OPNAME[ops1[a].kind]) + "@" + cfgs, cs, d + " | " + seq + " " + ops1[a].pretty()); continue; }
         if(m2.n() > 0 && m2.m() > 0 && (a % 4) == 1 && written(spx, ".lp") != reference_text(m2, ".lp")) { c.violation("written-file-differs-after-modification:" + std::string(OPNAME[ops1[a].kind]) + "@" + cfgs, cs, seq + " " + ops1[a].pretty()); continue; }
         if(m2.n() == 0) continue;
         bool wsFree = false;
         if(spx.hasBasis())
         {
            std::vector<SPxSolver::VarStatus> rs(m2.m() + 1), csx(m2.n() + 1);
            spx.getBasis(rs.data(), csx.data());
            for(int i = 0; i < m2.m(); ++i) if(rs[i] == SPxSolver::ZERO) wsFree = true;
         }
         int st = (int)spx.optimize();
         std::string j;
         if(plantedCl)
         {
            SoPlex ref;
            quiet(ref);
            ref.setIntParam(SoPlex::SCALER, SoPlex::SCALER_OFF);
            ref.setIntParam(SoPlex::SIMPLIFIER, SoPlex::SIMPLIFIER_OFF);
            load_real(ref, m2.tiny(), 0);
            int str = (int)ref.optimize();
            c.count("reference_solves_without_scaling");
            // UNBOUNDED against INFEASIBLE is not judged: both are admissible answers for an LP that is primal and dual infeasible (C02); OPTIMAL against anything else is
            bool v1 = st >= 1 && st <= 3, v2 = str >= 1 && str <= 3;
            if(v1 && v2 && st != str && (st == 1 || str == 1)) j = "status " + std::to_string(st) + ", never-scaled object on the same final LP: status " + std::to_string(str);
            // 1e-4 relative: these LPs are rescaled by up to 2^16 (row times column factor) on purpose, and both solves satisfy their 1e-6 tolerances in their own (scaled
            // or unscaled) space only - measured difference on the unchanged tree 5e-6 relative; a wrong exponent changes the optimum by a factor
            else if(st == 1 && str == 1 && fabs(spx.objValueReal() - ref.objValueReal()) > 1e-4 * (1 + fabs(ref.objValueReal()))) j = "objective " + TinyLP::num(spx.objValueReal()) + ", never-scaled object on the same final LP: " + TinyLP::num(ref.objValueReal());
         }
         else
         {
            Classification cl2 = classify(m2.tiny().exact());
            j = judge(st, spx.objValueReal(), cl2);
         }
         if(!j.empty()) c.violation("reoptimize-wrong-after:" + std::string(OPNAME[ops1[a].kind]) + "@" + cfgs + (wsFree ? "+warmstart-with-nonbasic-free-row" : ""), cs, j + " | " + seq + " " + ops1[a].pretty());
      }
   }
   return h;
}

// (C)
static uint64_t run_cycle(const TinyLP& t, int sc, Ctx& c)
{
   SoPlex spx;
   quiet(spx);
   spx.setIntParam(SoPlex::SCALER, sc);
   spx.setBoolParam(SoPlex::PERSISTENTSCALING, true);
   spx.setIntParam(SoPlex::SIMPLIFIER, SoPlex::SIMPLIFIER_OFF);
   load_real(spx, t, 0);
   Model mo = Model::from(t);
   Classification cl = classify(t.exact());
   std::string cs = t.str() + "#cycle," + std::to_string(sc);
   for(int k = 0; k < 24; ++k)
   {
      set_sub(k);
      spx.setIntParam(SoPlex::SCALER, (k & 1) ? SoPlex::SCALER_OFF : sc);
      int st = (int)spx.optimize();
      c.count("cycle_solves");
      std::string d = compare_real(spx, mo);
      if(!d.empty()) { c.violation(std::string("cycle:accessor-differs@") + SCNAME[sc], cs, "step " + std::to_string(k) + ": " + d); return k; }
      std::string j = judge(st, spx.objValueReal(), cl);
      if(!j.empty()) { c.violation(std::string("cycle:solve-wrong@") + SCNAME[sc], cs, "step " + std::to_string(k) + ": " + j); return k; }
      // touch the LP so that the next solve is not a no-op
      double nu = (k % 3 == 0) ? 2.0 : 4.0;
      if(mo.n() > 0) { spx.changeUpperReal(0, std::max(nu, mo.lo[0])); mo.up[0] = std::max(nu, mo.lo[0]); cl = classify(mo.tiny().exact()); }
   }
   c.count("cycles");
   c.count("cycle.unscaleCalls", spx._unscaleCalls);
   return 24;
}

int main(int argc, char** argv)
{
   Args args = parse_args(argc, argv);
   args.prop = "C09";
   g_tmp = args.outdir;
   if(!args.replay.empty())
   {
      std::ifstream in(args.replay);
      std::string doc((std::istreambuf_iterator<char>(in)), std::istreambuf_iterator<char>());
      size_t p = doc.find("\"case\": \"");
      if(p == std::string::npos) { printf("REPLAY-ERROR no case\n"); return 2; }
      p += 9;
      std::string cs = doc.substr(p, doc.find('"', p) - p);
      size_t h = cs.find('#');
      std::string rest = cs.substr(h + 1);
      mallopt(M_PERTURB, 85);
      PlantedSpec psp;
      if(cs.compare(0, 2, "P:") == 0 && PlantedSpec::parse(cs.substr(0, h), psp))
      {
         PlantedLP P = planted(psp);
         std::string nm = psp.str();
         int a = -1, b = 0, d = 0;
         if(sscanf(rest.c_str(), "%d,%d,%d", &a, &b, &d) == 3) return replay_case([&](Ctx & c) { run_spx(P.lp, a, b, d, 1, c, &P.cl, &nm); });
         for(int k = 1; k <= 6; ++k) if(rest == SCNAME[k]) return replay_case([&](Ctx & c) { run_bare(P.lp, k, c, &nm); });
         printf("REPLAY-ERROR bad case\n");
         return 2;
      }
      TinyLP t = TinyLP::parse(cs.substr(0, h));
      if(rest.compare(0, 5, "cycle") == 0) { int sc = atoi(rest.c_str() + 6); return replay_case([&](Ctx & c) { run_cycle(t, sc, c); }); }
      int a = -1, b = 0, d = 0;
      if(sscanf(rest.c_str(), "%d,%d,%d", &a, &b, &d) == 3) return replay_case([&](Ctx & c) { run_spx(t, a, b, d, 2, c); });
      for(int k = 1; k <= 6; ++k) if(rest == SCNAME[k]) return replay_case([&](Ctx & c) { run_bare(t, k, c); });
      printf("REPLAY-ERROR bad case\n");
      return 2;
   }
   bool thorough = args.tier == "thorough";
   Report rep(args, "model_checking", thorough ? 3000 : 400);
   std::vector<double> AL = {0, 1, 3, -16, 0.5, 8, 3.0 / 1048576.0, 655360.0};
   FamilySet fa;
   fa.add(famT(2, 2, AL, {1, -3}, {0, 3}, {0, 3}));
   fa.add(famT(3, 2, AL, {1}, {0, 1}, {0, 3}, 4));
   fa.add(famT(2, 3, AL, {1}, {0, 3}, {0, 2}, 4));
   RunOpts o = rep.opts();
   o.perturb = {85};
   uint64_t strideA = thorough ? 3 : 67;
   auto lpAt = [&](const FamilySet & fs, uint64_t stride, uint64_t k, TinyLP & t) -> bool
   {
      uint64_t raw = k * stride, lim = std::min<uint64_t>(raw + stride, fs.total);
      while(raw < lim && !fs.get(raw, t)) ++raw;
      return raw < lim;
   };
   rep.phase("A: six scalers on bare LPs", (fa.total / strideA) * 6, [&](uint64_t idx, int, Ctx & c) -> uint64_t
   {
      TinyLP t;
      if(!lpAt(fa, strideA, idx / 6, t)) return 0;
      return run_bare(t, int(idx % 6) + 1, c);
   }, [&](uint64_t idx, uint64_t) { TinyLP t; lpAt(fa, strideA, idx / 6, t); return t.str() + "#" + SCNAME[idx % 6 + 1]; }, o,
   [&](uint64_t idx, uint64_t) { return std::string("@") + SCNAME[idx % 6 + 1]; });

   FamilySet fb;
   fb.add(famT(2, 2, {0, 1, -16, 0.5, 8}, {1, -3}, {0, 3}, {0, 3}));
   uint64_t strideB = thorough ? 13 : 397;
   int depth = thorough ? 2 : 1;
   rep.phase("B: SoPlex x scaler x persistent x simplifier x modifications depth " + std::to_string(depth), (fb.total / strideB) * 28, [&](uint64_t idx, int, Ctx & c) -> uint64_t
   {
      TinyLP t;
      if(!lpAt(fb, strideB, idx / 28, t)) return 0;
      int k = int(idx % 28);
      return run_spx(t, k % 7, (k / 7) % 2, k / 14, depth, c);
   }, [&](uint64_t idx, uint64_t) { TinyLP t; lpAt(fb, strideB, idx / 28, t); int k = int(idx % 28); return t.str() + "#" + std::to_string(k % 7) + "," + std::to_string((k / 7) % 2) + "," + std::to_string(k / 14); }, o,
   [&](uint64_t idx, uint64_t) { int k = int(idx % 28); return std::string("@scaler=") + SCNAME[k % 7] + ",persistent=" + std::to_string((k / 7) % 2) + ",simplifier=" + std::to_string(k / 14); });

   {
      // planted LPs in their power-of-two rescaled form (entries spanning 2^-16..2^18): A' six scalers on the bare LP, B' scaler x persistent x simplifier x modifications
      static PlantedGrid pg;
      pg.sizes = {{5, 8}, {10, 10}, {16, 12}, {24, 24}, {40, 40}};
      pg.densities = {15, 40};
      pg.seeds = thorough ? 8 : 1;
      pg.kinds = 4;
      auto specA = [&](uint64_t k) { PlantedSpec sp = pg.at(k); sp.magnitude = 1; return sp; };
      rep.phase("A': six scalers on bare planted LPs up to 40x40 (rescaled by powers of two)", pg.size() * 6, [&](uint64_t idx, int, Ctx & c) -> uint64_t
      {
         PlantedSpec sp = specA(idx / 6);
         PlantedLP P = planted(sp);
         std::string nm = sp.str();
         c.count("planted_bare_scalings");
         return run_bare(P.lp, int(idx % 6) + 1, c, &nm);
      }, [&](uint64_t idx, uint64_t) { return specA(idx / 6).str() + "#" + SCNAME[idx % 6 + 1]; }, o, [&](uint64_t idx, uint64_t) { return std::string("@") + SCNAME[idx % 6 + 1] + "+planted"; });
      static PlantedGrid pb;
      pb.sizes = {{5, 8}, {10, 10}, {16, 12}};
      pb.densities = {40};
      pb.seeds = thorough ? 4 : 1;
      rep.phase("B': planted LPs up to 16x12 (rescaled) x scaler x persistent x simplifier x modifications", pb.size() * 28, [&](uint64_t idx, int, Ctx & c) -> uint64_t
      {
         PlantedSpec sp = pb.at(idx / 28);
         sp.magnitude = 1;
         PlantedLP P = planted(sp);
         std::string nm = sp.str();
         int k = int(idx % 28);
         c.count("planted_spx_cases");
         return run_spx(P.lp, k % 7, (k / 7) % 2, k / 14, 1, c, &P.cl, &nm);
      }, [&](uint64_t idx, uint64_t) { PlantedSpec sp = pb.at(idx / 28); sp.magnitude = 1; int k = int(idx % 28); return sp.str() + "#" + std::to_string(k % 7) + "," + std::to_string((k / 7) % 2) + "," + std::to_string(k / 14); }, o,
      [&](uint64_t idx, uint64_t) { int k = int(idx % 28); return std::string("@scaler=") + SCNAME[k % 7] + ",persistent=" + std::to_string((k / 7) % 2) + ",simplifier=" + std::to_string(k / 14) + "+planted"; });
      rep.extra["planted_grid"] = jstr("A': sizes 5x8 10x10 16x12 24x24 40x40, densities 15/40 %, degenerate 0/1, min/max, 4 kinds, rescaled, seeds 0.." + std::to_string(pg.seeds - 1) + "; B': sizes 5x8 10x10 16x12, density 40 %, 3 kinds, rescaled, seeds 0.." + std::to_string(pb.seeds - 1));
   }
   uint64_t strideC = thorough ? 101 : 1009;
   rep.phase("C: long re-scale cycle", (fb.total / strideC) * 6, [&](uint64_t idx, int, Ctx & c) -> uint64_t
   {
      TinyLP t;
      if(!lpAt(fb, strideC, idx / 6, t)) return 0;
      return run_cycle(t, int(idx % 6) + 1, c);
   }, [&](uint64_t idx, uint64_t) { TinyLP t; lpAt(fb, strideC, idx / 6, t); return t.str() + "#cycle," + std::to_string(idx % 6 + 1); }, o);
   auto& C = rep.all.counters;
   rep.evaluations = C["bare_scalings"] + C["spx_solves"] + C["modification_sequences"] + C["cycle_solves"];
   rep.rule = "A: every stride-th canonical LP of a family with entries spanning 2^-20..2^19 x six scalers; B: LP x scaler(7) x persistent(2) x simplifier(2), then every reduced-alphabet "
              "modification (and, thorough, a second one after an intermediate solve) - histories replayed on fresh objects; C: 24-step scale/unscale cycle. "
              "states = states in which the stored LP was scaled; non-trivial = bare scalings with at least one non-zero exponent plus modification sequences executed under active scaling";
   rep.assumptions = {"bit-for-bit comparison (memcmp on doubles); written files compared byte for byte with the file of a never-scaled object holding the reference model",
                      "exact oracle for solutions and re-optimisation"
                     };
   rep.finish(C["bare_nontrivial_exponents"] + C["modification_sequences"], C["states_with_scaled_stored_lp"] + C["bare_scaled"], rep.evaluations, rep.evaluations);
   return 0;
}
