// C17: solves are deterministic; copies are equal and independent.
//  (a) twin solves: same LP / parameters / seed in two fresh objects (different heap history) and again in the first object
//      after clearBasis: status, iteration count, basis and solution vectors bitwise identical (floating-point and exact).
//  (b) at every prefix point of short API histories: copy-construct B(A) and assign C = A into a previously USED object;
//      observable digests equal right after copying; then for every operation of a probe alphabet (and destruction):
//      apply it to the copy and re-read the source, apply it to the source and re-read the copy - nothing may change.
#include "vx_history.hpp"
using namespace vx;

static ConfigSpace g_cs;

// everything observable about a solver object, as text (bit-exact for doubles)
static std::string hexd(double d) { char b[40]; snprintf(b, sizeof b, "%a", d); return b; }
static std::string full_digest(SoPlex& spx, bool withSolution = true)
{
   std::ostringstream o;
   int n = spx.numCols(), m = spx.numRows();
   o << "dim " << n << "x" << m << " nnz " << spx.numNonzeros() << " sense " << spx.intParam(SoPlex::OBJSENSE) << "|";
   for(int i = 0; i < m; ++i)
   {
      o << hexd(spx.lhsReal(i)) << "," << hexd(spx.rhsReal(i)) << ":";
      for(int j = 0; j < n; ++j) o << hexd(spx.coefReal(i, j)) << ",";
      o << ";";
   }
   for(int j = 0; j < n; ++j) o << hexd(spx.lowerReal(j)) << "," << hexd(spx.upperReal(j)) << "," << hexd(spx.objReal(j)) << ";";
   o << "|P";
   for(int k = 0; k < SoPlex::BOOLPARAM_COUNT; ++k) o << (spx.boolParam((SoPlex::BoolParam)k) ? 1 : 0);
   for(int k = 0; k < SoPlex::INTPARAM_COUNT; ++k) o << "," << spx.intParam((SoPlex::IntParam)k);
   for(int k = 0; k < SoPlex::REALPARAM_COUNT; ++k) o << "," << hexd(spx.realParam((SoPlex::RealParam)k));
   auto tol = spx.tolerances();
   o << "|T" << hexd(tol->epsilon()) << "," << hexd(tol->floatingPointFeastol()) << "," << hexd(tol->floatingPointOpttol()) << "," << hexd(tol->epsilonFactorization())
     << "," << hexd(tol->epsilonUpdate()) << "," << hexd(tol->epsilonPivot());
   o << "|B" << spx.hasBasis();
   if(spx.hasBasis())
   {
      std::vector<SPxSolver::VarStatus> rs(m + 1), cs(n + 1);
      spx.getBasis(rs.data(), cs.data());
      for(int i = 0; i < m; ++i) o << (int)rs[i];
      o << "/";
      for(int j = 0; j < n; ++j) o << (int)cs[j];
   }
   o << "|S" << (int)spx.status() << "," << spx.hasSol();
   if(withSolution && spx.hasSol())
   {
      RealResult r;
      fetch(spx, r);
      o << "," << hexd(r.obj) << ",it" << r.iters;
      for(double v : r.x) o << "," << hexd(v);
      for(double v : r.s) o << "," << hexd(v);
      for(double v : r.y) o << "," << hexd(v);
      for(double v : r.d) o << "," << hexd(v);
   }
   // certificates of infeasible / unbounded solves belong to the solution as well
   o << "|C" << spx.hasPrimalRay() << spx.hasDualFarkas();
   if(withSolution)
   {
      int nn = spx.numCols(), mm = spx.numRows();
      if(spx.hasPrimalRay()) { VectorReal v(nn); for(int j = 0; j < nn; ++j) v[j] = 12345.0; spx.getPrimalRay(v); for(int j = 0; j < nn; ++j) o << "," << hexd(v[j]); }
      if(spx.hasDualFarkas()) { VectorReal w(mm); for(int i = 0; i < mm; ++i) w[i] = 12345.0; spx.getDualFarkas(w); for(int i = 0; i < mm; ++i) o << "," << hexd(w[i]); }
   }
   // tolerance wiring: every component of an object that holds a Tolerances object at all holds the object's OWN one (a copy that keeps the source's object follows
   // the source's later parameter changes).  The digest carries the list of components with a FOREIGN Tolerances object - empty on a sound object; components that
   // have none yet (pricers / starters that were never selected) are not listed.
   {
      const Tolerances* own = spx.tolerances().get();
      std::string foreign;
      auto wire = [&](const char* name, const Tolerances * t) { if(t != nullptr && t != own) foreign += std::string(foreign.empty() ? "" : "+") + name; };
      wire("solver", spx._solver.tolerances().get());
      if(spx._realLP) wire("realLP", spx._realLP->tolerances().get());
      if(spx._rationalLP) wire("rationalLP", spx._rationalLP->tolerances().get());
      wire("simplifier", spx._simplifierMainSM.tolerances().get());
      wire("scalerBiequi", spx._scalerBiequi.tolerances().get());
      wire("scalerGeo8", spx._scalerGeo8.tolerances().get());
      wire("scalerLeastsq", spx._scalerLeastsq.tolerances().get());
      wire("ratiotesterBoundFlipping", spx._ratiotesterBoundFlipping.tolerances().get());
      wire("ratiotesterFast", spx._ratiotesterFast.tolerances().get());
      wire("ratiotesterHarris", spx._ratiotesterHarris.tolerances().get());
      wire("ratiotesterTextbook", spx._ratiotesterTextbook.tolerances().get());
      wire("starterWeight", spx._starterWeight.tolerances().get());
      wire("pricerAuto", spx._pricerAuto._tolerances.get());
      wire("pricerDantzig", spx._pricerDantzig._tolerances.get());
      wire("pricerParMult", spx._pricerParMult._tolerances.get());
      wire("pricerDevex", spx._pricerDevex._tolerances.get());
      wire("pricerQuickSteep", spx._pricerQuickSteep._tolerances.get());
      wire("pricerSteep", spx._pricerSteep._tolerances.get());
      wire("slufactor", spx._slufactor._tolerances.get());
      o << "|W" << foreign;
   }
   // integrality information handed over by the user (read from the solver's private copy; there is no getter)
   o << "|I";
   for(int j = 0; j < spx._solver.integerVariables.size(); ++j) o << spx._solver.integerVariables[j];
   // rational LP, if present
   o << "|R" << (spx._rationalLP != nullptr);
   if(spx._rationalLP != nullptr)
   {
      o << spx.numRowsRational() << "x" << spx.numColsRational() << ":";
      for(int i = 0; i < spx.numRowsRational(); ++i)
      {
         o << spx.lhsRational(i).str() << "," << spx.rhsRational(i).str() << ":";
         const SVectorRational& r = spx.rowVectorRational(i);
         for(int k = 0; k < r.size(); ++k) o << r.index(k) << "=" << r.value(k).str() << ",";
      }
      for(int j = 0; j < spx.numColsRational(); ++j) o << spx.lowerRational(j).str() << "," << spx.upperRational(j).str() << "," << spx.objRational(j).str() << ";";
   }
   return o.str();
}

// ---- (a) twin solves ---------------------------------------------------------------------------------
static void churn_heap(int k)
{
   std::vector<void*> v;
   for(int i = 0; i < 20 + k; ++i) v.push_back(malloc(24 + 8 * ((i * 7 + k) % 40)));
   for(size_t i = 0; i < v.size(); i += 2) free(v[i]);
   for(size_t i = 1; i < v.size(); i += 2) free(v[i]);
}
static std::string solve_digest(SoPlex& spx, bool exact)
{
   spx.optimize();
   std::string d = full_digest(spx);
   d += "|it" + std::to_string(spx.numIterations());
   if(exact && spx.hasSol())
   {
      VectorRational px(spx.numCols()), py(spx.numRows());
      if(spx.getPrimalRational(px)) for(int j = 0; j < px.dim(); ++j) d += "," + px[j].str();
      if(spx.getDualRational(py)) for(int i = 0; i < py.dim(); ++i) d += "," + py[i].str();
      d += "|obj" + spx.objValueRational().str() + "|ref" + std::to_string(spx.numRefinements());
   }
   return d;
}
static uint64_t run_twin(const TinyLP& t, const ConfigSpace::Cfg& cfg, bool exact, Ctx& c)
{
   auto mk = [&](SoPlex & spx)
   {
      quiet(spx);
      g_cs.apply(spx, cfg);
      if(exact)
      {
         spx.setIntParam(SoPlex::SYNCMODE, SoPlex::SYNCMODE_AUTO);
         spx.setIntParam(SoPlex::SOLVEMODE, SoPlex::SOLVEMODE_RATIONAL);
         spx.setRealParam(SoPlex::FEASTOL, 0.0);
         spx.setRealParam(SoPlex::OPTTOL, 0.0);
      }
      load_real(spx, t, 0);
   };
   std::string cs = t.str() + "#" + g_cs.str(cfg) + (exact ? "#exact" : "");
   SoPlex A;
   mk(A);
   std::string d1 = solve_digest(A, exact);
   churn_heap(7);
   std::string d2;
   {
      SoPlex B;
      mk(B);
      d2 = solve_digest(B, exact);
   }
   c.count(exact ? "twin_exact" : "twin_real");
   if(d1 != d2) { c.violation(std::string("twin-objects-differ") + (exact ? ":exact" : "") + "@" + g_cs.str(cfg), cs, "first object: " + d1.substr(d1.find("|B")) + " second object: " + d2.substr(d2.find("|B"))); return 1; }
   churn_heap(3);
   A.clearBasis();
   std::string d3 = solve_digest(A, exact);
   if(c.wantSample() && !exact) c.sample("{\"lp\":" + t.json() + ",\"config\":" + jstr(g_cs.str(cfg)) + ",\"digest_tail\":" + jstr(d1.substr(d1.find("|B"), 120)) + "}");
   if(d1 != d3) { c.violation(std::string("resolve-after-clearBasis-differs") + (exact ? ":exact" : "") + "@" + g_cs.str(cfg), cs, "first solve: " + d1.substr(d1.find("|B")) + " after clearBasis: " + d3.substr(d3.find("|B"))); return 2; }
   return fnv_str(d1);
}

// ---- (a2) medium-size generated LPs: state that a solve leaves behind in a re-used object -----------------------------
// Covering LPs  min c x, A x >= 1, 0 <= x <= u  with pseudo-random three-digit coefficients from a fixed integer LCG (no library RNG): real-valued data, so the
// optimum is unique and non-degenerate and a solve takes 10-60 iterations - long enough for counters and histories inside pricers / ratio testers to matter.
struct MediumLP { int m, n; bool boxed; std::vector<double> c; std::vector<std::vector<double>> A; };
static MediumLP medium_lp(int shape, int seed)
{
   MediumLP L;
   L.boxed = (shape == 0);
   L.m = L.boxed ? 15 : 20;
   L.n = L.boxed ? 40 : 30;
   uint64_t x = 88172645463325252ull + 7919ull * (uint64_t)seed + 104729ull * (uint64_t)shape;
   auto next = [&]() { x ^= x << 13; x ^= x >> 7; x ^= x << 17; return x; };
   L.c.resize(L.n);
   L.A.assign(L.m, std::vector<double>(L.n, 0.0));
   for(int j = 0; j < L.n; ++j) L.c[j] = 1.0 + double(next() % 4000) / 1000.0;
   for(int i = 0; i < L.m; ++i)
   {
      int nz = 0;
      for(int j = 0; j < L.n; ++j) if(next() % 4 == 0) { L.A[i][j] = 0.5 + double(next() % 3000) / 1000.0; ++nz; }
      if(nz < 3) for(int k = 0; k < 3; ++k) L.A[i][(i * 7 + k * 11) % L.n] = 1.0 + double(next() % 2000) / 1000.0;
   }
   return L;
}
static void load_medium(SoPlex& spx, const MediumLP& L)
{
   spx.setIntParam(SoPlex::OBJSENSE, SoPlex::OBJSENSE_MINIMIZE);
   DSVector e(0);
   for(int j = 0; j < L.n; ++j) spx.addColReal(LPCol(L.c[j], e, L.boxed ? 1.0 : (double)infinity, 0.0));
   for(int i = 0; i < L.m; ++i)
   {
      DSVector r(L.n);
      for(int j = 0; j < L.n; ++j) if(L.A[i][j] != 0) r.add(j, L.A[i][j]);
      spx.addRowReal(LPRow(1.0, r, (double)infinity));
   }
}
static std::string medium_digest(SoPlex& spx)
{
   spx.optimize();
   std::string d = full_digest(spx);
   return d.substr(d.find("|B")) + "|it" + std::to_string(spx.numIterations());
}
static uint64_t run_medium(int shape, int seed, const ConfigSpace::Cfg& cfg, Ctx& c)
{
   std::string cs = "medium:" + std::to_string(shape) + ":" + std::to_string(seed) + "#" + g_cs.str(cfg);
   std::string at = std::string(shape ? "unboxed-20x30" : "boxed-15x40") + "|" + g_cs.str(cfg);
   MediumLP L = medium_lp(shape, seed), other = medium_lp(1 - shape, seed + 100);
   auto fresh = [&](const MediumLP & lp) { SoPlex s; quiet(s); g_cs.apply(s, cfg); load_medium(s, lp); return medium_digest(s); };
   std::string ref = fresh(L);
   c.count("medium_reference_solves");
   {
      // the family is only useful if the reference solve is a real simplex run ending OPTIMAL: counted, and part of the evidence sample
      SoPlex s; quiet(s); g_cs.apply(s, cfg); load_medium(s, L);
      int st = (int)s.optimize();
      c.count(st == 1 ? "medium_reference_optimal" : "medium_reference_not_optimal");
      c.count("medium_reference_iterations", s.numIterations());
      if(s.numIterations() >= 11) c.count("medium_reference_with_11_or_more_iterations");
      if(c.wantSample()) c.sample("{\"medium_lp\":" + jstr(at) + ",\"seed\":" + std::to_string(seed) + ",\"status\":" + std::to_string(st) + ",\"iterations\":" + std::to_string(s.numIterations()) + ",\"objective\":" + jstr(hexd(s.objValueReal())) + "}");
   }
   // (A) a second fresh object
   churn_heap(5);
   if(fresh(L) != ref) { c.violation("twin-objects-differ:medium@" + at, cs, "two fresh objects solve the same LP differently"); return 1; }
   // (B) the same object: solve, clearBasis, solve again (twice)
   {
      SoPlex s; quiet(s); g_cs.apply(s, cfg); load_medium(s, L);
      std::string d1 = medium_digest(s);
      for(int rep = 0; rep < 2; ++rep)
      {
         s.clearBasis();
         std::string d2 = medium_digest(s);
         c.count("medium_resolves");
         if(d2 != d1) { c.violation("resolve-after-clearBasis-differs:medium-nondegenerate@" + at, cs, "solve " + std::to_string(rep + 2) + " on the same object after clearBasis(): " + d2.substr(d2.size() > 60 ? d2.size() - 60 : 0) + " vs first solve " + d1.substr(d1.size() > 60 ? d1.size() - 60 : 0)); return 2; }
      }
   }
   // (C) an object that solved ANOTHER LP before, then clearLPReal() + load: must behave like a fresh object
   {
      SoPlex s; quiet(s); g_cs.apply(s, cfg); load_medium(s, other);
      s.optimize();
      s.clearLPReal();
      load_medium(s, L);
      std::string d = medium_digest(s);
      c.count("medium_reused_objects");
      if(d != ref) { c.violation("reused-object-differs-from-fresh:after-clearLPReal@" + at, cs, "after solving another LP, clearLPReal() and loading this LP: " + d.substr(d.size() > 60 ? d.size() - 60 : 0) + " vs fresh object " + ref.substr(ref.size() > 60 ? ref.size() - 60 : 0)); return 3; }
   }
   // (D) two live objects used alternately
   {
      SoPlex a, b; quiet(a); quiet(b); g_cs.apply(a, cfg); g_cs.apply(b, cfg);
      load_medium(a, other); load_medium(b, L);
      a.optimize();
      std::string db = medium_digest(b);
      c.count("medium_alternating_objects");
      if(db != ref) { c.violation("second-live-object-differs-from-fresh:medium@" + at, cs, "object b solved after object a solved another LP differs from a fresh object"); return 4; }
   }
   return fnv_str(ref);
}

// ---- (b) copies --------------------------------------------------------------------------------------
static const char* BASE = "n=2;m=2;max=1;off=3;c=1,2;lo=0,0;up=4,inf;lhs=-inf,-1;rhs=4,2;A=8,1|0.5,-2";
static const char* INITN[] = {"empty", "loaded", "solved", "solved-no-presolve", "basis-set", "rational-lp-present", "rational-solved", "persistent-scaled",
                              "unbounded-no-presolve", "infeasible-no-presolve", "infeasible-exact", "integrality-polishing"
                             };
static const int NINIT = 12;
static void make_init(SoPlex& spx, Model& mo, int kind)
{
   quiet(spx);
   mo = Model();
   if(kind == 0) return;
   if(kind == 5 || kind == 6) spx.setIntParam(SoPlex::SYNCMODE, SoPlex::SYNCMODE_AUTO);
   if(kind == 3 || kind == 7 || kind == 8 || kind == 9) spx.setIntParam(SoPlex::SIMPLIFIER, SoPlex::SIMPLIFIER_OFF);
   if(kind == 10) spx.setIntParam(SoPlex::SYNCMODE, SoPlex::SYNCMODE_AUTO);
   if(kind == 11)
   {
      // integrality information + polishing towards integrality on an LP with a face of optima (x_k + z_k = const, equal costs): the information handed over with
      // setIntegralityInformation() is part of what a copy must carry - it decides which vertex the polishing step ends at
      spx.setIntParam(SoPlex::SIMPLIFIER, SoPlex::SIMPLIFIER_OFF);
      spx.setIntParam(SoPlex::SOLUTION_POLISHING, SoPlex::POLISHING_INTEGRALITY);
      TinyLP lp = TinyLP::parse("n=4;m=2;max=0;off=0;c=1,1,1,1;lo=0,0,0,0;up=10,10,10,10;lhs=1.5,2.5;rhs=1.5,2.5;A=1,0,1,0|0,1,0,1");
      load_real(spx, lp, 0);
      mo = Model::from(lp);
      int info[4] = {1, 1, 0, 0};
      spx.setIntegralityInformation(4, info);
      return;
   }
   if(kind >= 8)
   {
      // unbounded: max x0+x1, x0-x1<=1; infeasible: x0+x1<=1, x0+x1>=2 (unique structure, certificates exist without presolve)
      TinyLP lp = TinyLP::parse(kind == 8 ? "n=2;m=1;max=1;off=0;c=1,1;lo=0,0;up=inf,inf;lhs=-inf;rhs=1;A=1,-1" : "n=2;m=2;max=0;off=0;c=1,1;lo=0,0;up=inf,inf;lhs=-inf,2;rhs=1,inf;A=1,1|1,1");
      load_real(spx, lp, 0);
      mo = Model::from(lp);
      if(kind == 10) spx.setIntParam(SoPlex::SOLVEMODE, SoPlex::SOLVEMODE_RATIONAL);
      spx.optimize();
      return;
   }
   if(kind == 7) spx.setIntParam(SoPlex::SCALER, SoPlex::SCALER_GEO8);
   TinyLP lp = TinyLP::parse(BASE);
   load_real(spx, lp, 0);
   mo = Model::from(lp);
   if(kind == 2 || kind == 3 || kind == 7) spx.optimize();
   if(kind == 4)
   {
      std::vector<SPxSolver::VarStatus> rs(2, SPxSolver::BASIC), cs(2, SPxSolver::ON_LOWER);
      spx.setBasis(rs.data(), cs.data());
   }
   if(kind == 6)
   {
      spx.setIntParam(SoPlex::SOLVEMODE, SoPlex::SOLVEMODE_RATIONAL);
      spx.optimize();
   }
}
// a previously used object to assign into
static void make_used(SoPlex& spx)
{
   quiet(spx);
   spx.setIntParam(SoPlex::SCALER, SoPlex::SCALER_GEO1);
   spx.setRealParam(SoPlex::FEASTOL, 1e-7);
   TinyLP lp = TinyLP::parse("n=3;m=2;max=0;off=1;c=1,-1,2;lo=0,-1,0;up=inf,2,3;lhs=1,-inf;rhs=inf,16;A=1,1,0|4,0,16");
   load_real(spx, lp, 0);
   spx.optimize();
}

// probe operations for the independence test (applied to one object, the other must not change)
struct Probe { const char* name; int kind; };
static const Probe PROBES[] =
{
   {"optimize", 0}, {"changeObjReal(0,5)", 1}, {"changeUpperReal(0,1)", 2}, {"changeElementReal(0,0,3)", 3}, {"addRowReal", 4}, {"addColReal", 5},
   {"removeRowReal(0)", 6}, {"removeColReal(0)", 7}, {"clearLPReal", 8}, {"setRealParam(FEASTOL,1e-3)", 9}, {"setRealParam(OPTTOL,1e-4)", 10},
   {"setIntParam(SCALER,0)", 11}, {"setIntParam(OBJSENSE,min)", 12}, {"setRealParam(OBJ_OFFSET,7)", 13}, {"setBoolParam(ENSURERAY,true)", 14},
   {"clearBasis", 15}, {"setIntParam(SYNCMODE,auto)", 16}, {"changeLhsRational(0,1/3)", 17}, {"resetSettings", 18}, {"setRealParam(EPSILON_ZERO,1e-12)", 19}
};
static const int NPROBE = 20;
static void apply_probe(SoPlex& s, int k)
{
   int n = s.numCols(), m = s.numRows();
   switch(k)
   {
   case 0: s.optimize(); break;
   case 1: if(n > 0) s.changeObjReal(0, 5.0); break;
   case 2: if(n > 0) s.changeUpperReal(0, std::max(1.0, s.lowerReal(0))); break;
   case 3: if(n > 0 && m > 0) s.changeElementReal(0, 0, 3.0); break;
   case 4: { DSVector r(n + 1); if(n > 0) r.add(0, 1.0); s.addRowReal(LPRow(-1.0, r, 9.0)); break; }
   case 5: { DSVector col(m + 1); if(m > 0) col.add(0, 1.0); s.addColReal(LPCol(1.0, col, 5.0, 0.0)); break; }
   case 6: if(m > 0) s.removeRowReal(0); break;
   case 7: if(n > 0) s.removeColReal(0); break;
   case 8: s.clearLPReal(); break;
   case 9: s.setRealParam(SoPlex::FEASTOL, 1e-3); break;
   case 10: s.setRealParam(SoPlex::OPTTOL, 1e-4); break;
   case 11: s.setIntParam(SoPlex::SCALER, SoPlex::SCALER_OFF); break;
   case 12: s.setIntParam(SoPlex::OBJSENSE, SoPlex::OBJSENSE_MINIMIZE); break;
   case 13: s.setRealParam(SoPlex::OBJ_OFFSET, 7.0); break;
   case 14: s.setBoolParam(SoPlex::ENSURERAY, true); break;
   case 15: s.clearBasis(); break;
   case 16: s.setIntParam(SoPlex::SYNCMODE, SoPlex::SYNCMODE_AUTO); break;
   case 17: if(m > 0 && s.intParam(SoPlex::SYNCMODE) != SoPlex::SYNCMODE_ONLYREAL) s.changeLhsRational(0, Rational(-1) / 3); break;
   case 18: s.resetSettings(true); break;
   case 19: s.setRealParam(SoPlex::EPSILON_ZERO, 1e-12); break;
   }
}

struct Hist { int init; std::vector<Op> ops; };
static std::string hist_str(const Hist& h)
{
   std::string s = "init=" + std::to_string(h.init) + ";ops=";
   for(size_t k = 0; k < h.ops.size(); ++k) s += (k ? "/" : "") + h.ops[k].str();
   return s;
}
static std::string hist_pretty(const Hist& h)
{
   std::string s = std::string("from '") + INITN[h.init] + "': ";
   for(size_t k = 0; k < h.ops.size(); ++k) s += (k ? " ; " : "") + h.ops[k].pretty();
   return s;
}
static void build_hist(SoPlex& spx, Model& mo, const Hist& h)
{
   make_init(spx, mo, h.init);
   for(auto& op : h.ops)
   {
      std::vector<Model> alts;
      apply_op(spx, mo, op, &alts);
      if(!alts.empty() && !compare_real(spx, mo).empty()) mo = alts[0];
   }
}

// the copy test at the end point of history h
static uint64_t run_copy(const Hist& h, Ctx& c)
{
   std::string cs = hist_str(h);
   std::string where = std::string(INITN[h.init]) + (h.ops.empty() ? "" : std::string("|") + OPNAME[h.ops.back().kind]);
   Model mo;
   uint64_t hh = 1;
   for(int kind = 0; kind < 2; ++kind)   // 0: copy construction, 1: assignment into a used object
   {
      const char* kname = kind ? "assign" : "copy-construct";
      // equality right after copying
      {
         SoPlex A;
         build_hist(A, mo, h);
         std::string dA = full_digest(A);
         SoPlex* B;
         if(kind == 0) B = new SoPlex(A);
         else { B = new SoPlex(); make_used(*B); *B = A; }
         c.count(kind ? "assignments" : "copy_constructions");
         std::string dB = full_digest(*B);
         std::string dA2 = full_digest(A);
         if(dA != dA2) c.violation(std::string("source-changed-by-copying:") + kname + "@" + where, cs, hist_pretty(h));
         if(dA != dB)
         {
            size_t p = 0;
            while(p < dA.size() && p < dB.size() && dA[p] == dB[p]) ++p;
            size_t sec = dA.rfind('|', p);
            c.violation(std::string("copy-differs-from-source:") + kname + ":" + (sec == std::string::npos ? "dims" : dA.substr(sec + 1, 1)) + "@" + where, cs,
                        "source ..." + dA.substr(p > 30 ? p - 30 : 0, 90) + " copy ..." + dB.substr(p > 30 ? p - 30 : 0, 90) + " | " + hist_pretty(h));
         }
         // both solve to the same result
         if(A.numCols() > 0)
         {
            A.optimize();
            B->optimize();
            std::string s1 = full_digest(A), s2 = full_digest(*B);
            if(s1 != s2 && dA == dB) c.violation(std::string("copy-solves-differently:") + kname + "@" + where, cs, hist_pretty(h));
         }
         delete B;
         hh = hh * 31 + fnv_str(dA);
      }
      // independence, both directions, every probe + destruction
      for(int dir = 0; dir < 2; ++dir)
         for(int p = 0; p <= NPROBE; ++p)
         {
            set_sub(kind * 1000 + dir * 100 + p);
            SoPlex* A = new SoPlex();
            build_hist(*A, mo, h);
            SoPlex* B;
            if(kind == 0) B = new SoPlex(*A);
            else { B = new SoPlex(); make_used(*B); *B = *A; }
            SoPlex* touched = dir ? A : B;      // dir 0: operate on the copy, watch the source
            SoPlex* watched = dir ? B : A;
            std::string before = full_digest(*watched);
            if(p < NPROBE) apply_probe(*touched, PROBES[p].kind);
            else { delete touched; touched = nullptr; }
            std::string after = full_digest(*watched);
            c.count("independence_probes");
            if(before != after)
            {
               size_t q = 0;
               while(q < before.size() && q < after.size() && before[q] == after[q]) ++q;
               size_t sec = before.rfind('|', q);
               c.violation(std::string("not-independent:") + kname + ":" + (dir ? "source-op-changes-copy" : "copy-op-changes-source") + ":" + (p < NPROBE ? PROBES[p].name : "destroy") + ":" +
                           (sec == std::string::npos ? "dims" : before.substr(sec + 1, 1)) + "@" + where, cs,
                           "before ..." + before.substr(q > 30 ? q - 30 : 0, 80) + " after ..." + after.substr(q > 30 ? q - 30 : 0, 80) + " | " + hist_pretty(h));
            }
            // the watched object must still work
            if(watched->numCols() > 0) { watched->optimize(); }
            if(dir) { delete B; if(touched) delete A; }
            else { delete A; if(touched) delete B; }
         }
   }
   c.state(std::to_string(hh));
   if(c.wantSample() && h.ops.size() == 1) c.sample("{\"copy_point\":" + jstr(hist_pretty(h)) + ",\"probes_each_direction\":" + std::to_string(NPROBE + 1) + "}");
   return hh;
}

int main(int argc, char** argv)
{
   Args args = parse_args(argc, argv);
   args.prop = "C17";
   g_cs = ConfigSpace::algorithmic();
   if(!args.replay.empty())
   {
      std::ifstream in(args.replay);
      std::string doc((std::istreambuf_iterator<char>(in)), std::istreambuf_iterator<char>());
      size_t p = doc.find("\"case\": \"");
      if(p == std::string::npos) { printf("REPLAY-ERROR no case\n"); return 2; }
      p += 9;
      std::string cs = doc.substr(p, doc.find('"', p) - p);
      mallopt(M_PERTURB, 85);
      if(cs.compare(0, 5, "init=") == 0)
      {
         Hist h;
         h.init = atoi(cs.c_str() + 5);
         size_t q = cs.find(";ops=");
         std::string ops = cs.substr(q + 5);
         if(!ops.empty()) for(auto& o : split(ops, '/')) h.ops.push_back(Op::parse(o));
         return replay_case([&](Ctx & c) { run_copy(h, c); });
      }
      if(cs.compare(0, 7, "medium:") == 0)
      {
         int shape = 0, seed = 0;
         sscanf(cs.c_str(), "medium:%d:%d", &shape, &seed);
         size_t hh = cs.find('#');
         ConfigSpace::Cfg cfgm = g_cs.parse(hh == std::string::npos ? "default" : cs.substr(hh + 1));
         return replay_case([&](Ctx & c) { run_medium(shape, seed, cfgm, c); });
      }
      auto parts = split(cs, '#');
      TinyLP t = TinyLP::parse(parts[0]);
      ConfigSpace::Cfg cfg = g_cs.parse(parts.size() > 1 ? parts[1] : "default");
      bool exact = parts.size() > 2;
      return replay_case([&](Ctx & c) { run_twin(t, cfg, exact, c); });
   }
   bool thorough = args.tier == "thorough";
   Report rep(args, "model_checking", thorough ? 3000 : 400);
   RunOpts o = rep.opts();
   o.perturb = thorough ? std::vector<int> {85, 165} : std::vector<int> {85};
   RunOpts o2a = rep.opts();
   o2a.perturb = {85};
   // (a)
   FamilySet fs;
   fs.add(famQ());
   auto cfg1 = g_cs.upto(1);
   uint64_t stride = thorough ? 3 : 37;
   auto lpAt = [&](uint64_t k, TinyLP & t) -> bool
   {
      uint64_t raw = k * stride, lim = std::min<uint64_t>(raw + stride, fs.total);
      while(raw < lim && !fs.get(raw, t)) ++raw;
      return raw < lim;
   };
   rep.phase("twin solves: Q-subset x dev<=1 (real) + exact", fs.total / stride, [&](uint64_t idx, int, Ctx & c) -> uint64_t
   {
      TinyLP t;
      if(!lpAt(idx, t)) return 0;
      uint64_t h = 1;
      for(size_t k = 0; k < cfg1.size(); ++k) { set_sub(k); h = h * 31 + run_twin(t, cfg1[k], false, c); }
      set_sub(cfg1.size());
      h = h * 31 + run_twin(t, cfg1[0], true, c);
      for(size_t k = 1; k < cfg1.size(); k += 5) h = h * 31 + run_twin(t, cfg1[k], true, c);
      return h;
   }, [&](uint64_t idx, uint64_t sub) { TinyLP t; lpAt(idx, t); return t.str() + "#" + g_cs.str(cfg1[sub < cfg1.size() ? sub : 0]); }, o,
   [&](uint64_t, uint64_t sub) { return "@" + g_cs.str(cfg1[sub < cfg1.size() ? sub : 0]); });
   // (b)
   std::vector<Hist> hs;
   for(int in = 0; in < NINIT; ++in)
   {
      hs.push_back({in, {}});
      SoPlex spx;
      Model mo;
      make_init(spx, mo, in);
      for(auto& op : alphabet(mo.n(), mo.m(), true))
      {
         hs.push_back({in, {op}});
         if(thorough && (op.kind == OP_OPTIMIZE || op.kind == OP_ADDROW || op.kind == OP_RMCOL || op.kind == OP_CHGBOUNDS || op.kind == OP_CLEARBASIS || op.kind == OP_CHGELEM))
         {
            SoPlex s2;
            Model m2;
            Hist h1{in, {op}};
            build_hist(s2, m2, h1);
            for(auto& op2 : alphabet(m2.n(), m2.m(), true))
               if(op2.kind == OP_OPTIMIZE || op2.kind == OP_RMROW || op2.kind == OP_ADDCOL || op2.kind == OP_CHGOBJ || op2.kind == OP_GETSETBASIS || op2.kind == OP_SENSE)
                  hs.push_back({in, {op, op2}});
         }
      }
   }
   {
      // (a2) medium LPs x {default, primal, row representation, Devex, textbook ratio test, no simplifier} x seeds
      std::vector<ConfigSpace::Cfg> mc;
      for(const char* t : {"default", "algorithm=0", "representation=2", "pricer=3", "ratiotester=0", "simplifier=0", "ratiotester=3,simplifier=0"}) mc.push_back(g_cs.parse(t));
      int seeds = thorough ? 24 : 6;
      rep.phase("medium generated LPs: re-used objects vs fresh objects", (uint64_t)2 * seeds * mc.size(), [&, seeds](uint64_t idx, int, Ctx & c) -> uint64_t
      {
         int shape = int(idx % 2), seed = int((idx / 2) % seeds) + 1;
         return run_medium(shape, seed, mc[idx / 2 / seeds], c);
      }, [&, seeds](uint64_t idx, uint64_t) { return "medium:" + std::to_string(idx % 2) + ":" + std::to_string((idx / 2) % seeds + 1) + "#" + g_cs.str(mc[idx / 2 / seeds]); }, o2a);
   }
   RunOpts o2 = rep.opts();
   o2.perturb = {85};
   rep.phase("copies at every prefix point of histories", hs.size(), [&](uint64_t idx, int, Ctx & c) -> uint64_t
   {
      c.count("prefix_points");
      return run_copy(hs[idx], c);
   }, [&](uint64_t idx, uint64_t) { return hist_str(hs[idx]); }, o2,
   [&](uint64_t idx, uint64_t sub)
   {
      int p = int(sub % 100);
      return std::string("@copy-phase:") + (sub >= 1000 ? "assign" : "copy-construct") + ":" + ((sub / 100) % 10 ? "op-on-source" : "op-on-copy") + ":" + (p < NPROBE ? PROBES[p].name : "destroy") + "|" + INITN[hs[idx].init];
   });
   auto& C = rep.all.counters;
   rep.evaluations = C["twin_real"] + C["twin_exact"] + C["independence_probes"] + C["copy_constructions"] + C["assignments"] + C["medium_reference_solves"] + C["medium_resolves"] + C["medium_reused_objects"] + C["medium_alternating_objects"];
   rep.rule = "(a) every stride-th canonical LP of Q x every configuration with <=1 deviation (floating point) and a subset exact: two fresh objects with different heap history and a "
              "re-solve after clearBasis, compared through a bit-exact text digest; (a2) generated non-degenerate covering LPs (15x40 boxed, 20x30 unboxed, fixed integer LCG, 6 / 24 seeds) x 7 configurations: second fresh object, "
              "solve / clearBasis / solve on one object, an object re-used after clearLPReal() and a second live object, each compared with a fresh object (digest incl. iteration count); (b) every prefix point of the histories (8 initial states x reduced alphabet, depth 1; thorough: selected depth 2): "
              "copy construction and assignment into a used object, digest equality, then 20 probe operations + destruction in both directions. states = prefix points, transitions = probes";
   rep.assumptions = {"the digest covers every accessor of the real LP, all parameters, the tolerance object, basis, status, solution vectors and the rational LP"};
   rep.finish(C["prefix_points"] + C["twin_real"], C["prefix_points"], C["independence_probes"], rep.evaluations);
   return 0;
}
