// C14: basis files and state files restore what was saved.
//  (1) LP x EVERY valid status assignment (all regular bases x all nonbasic placements, installed with setBasis, plus the basis
//      left by a solve) x {user names, default names} x cpxFormat x {LP inside the solver, LP held outside}:
//      writeBasisFile, readBasisFile into the same and into a new object, statuses must be identical (up to FIXED marking).
//  (2) LP x parameter vectors with <= 1 deviation x {real, rational}: writeState*, then readFile + readBasisFile + loadSettingsFile
//      into a new object: LP (under the MPS normalisations), basis statuses, every parameter, and the re-solve must agree.
#include "vx_history.hpp"
#include "vx_planted.hpp"
using namespace vx;

static ConfigSpace g_cs;
static std::string g_tmp;

static std::string stat_str(const std::vector<SPxSolver::VarStatus>& v, int n)
{
   std::string s;
   for(int i = 0; i < n; ++i) s += std::to_string((int)v[i]);
   return s;
}
static void make_names(NameSet& rows, NameSet& cols, int m, int n)
{
   for(int i = 0; i < m; ++i) { std::string s = "Rw_" + std::to_string(i) + "a"; rows.add(s.c_str()); }
   for(int j = 0; j < n; ++j) { std::string s = "v" + std::to_string(j) + "_Col"; cols.add(s.c_str()); }
}
static bool same_status(SPxSolver::VarStatus got, SPxSolver::VarStatus want, double lo, double up)
{
   if(got == want) return true;
   if(lo == up && (got == SPxSolver::FIXED || want == SPxSolver::FIXED) && got != SPxSolver::BASIC && want != SPxSolver::BASIC) return true;
   return false;
}

// (1)
typedef std::vector<std::pair<std::vector<SPxSolver::VarStatus>, std::vector<SPxSolver::VarStatus>>> BasisList;
static uint64_t run_basisfiles_core(const TinyLP& t, const BasisList* given, const std::string& caseLP, const std::string& sigTag, int outside, int names, int cpx, Ctx& c);

static uint64_t run_basisfiles(const TinyLP& t, int outside, int names, int cpx, Ctx& c)
{
   return run_basisfiles_core(t, nullptr, t.str(), "", outside, names, cpx, c);
}

// planted medium-size LP: the bases are the ones iteration-limited solves stop at (limits 1, 2, 3, 5, 8, 13, ... under column and under row representation) - dozens of
// rows and columns with every kind of status, so the XU/XL pairing of basic columns with nonbasic rows in the writer works on long lists
static uint64_t run_planted14(const PlantedSpec& sp, int outside, int names, int cpx, Ctx& c)
{
   PlantedLP P = planted(sp);
   const TinyLP& t = P.lp;
   BasisList bases;
   for(int rep = 1; rep <= 2; ++rep)
   {
      int N = 0;
      { SoPlex r; quiet(r); r.setIntParam(SoPlex::REPRESENTATION, rep); r.setIntParam(SoPlex::SIMPLIFIER, SoPlex::SIMPLIFIER_OFF); load_real(r, t, 0); r.optimize(); N = r.numIterations(); }
      for(int k = 1, kp = 1; k < N && bases.size() < 12; )
      {
         SoPlex s;
         quiet(s);
         s.setIntParam(SoPlex::REPRESENTATION, rep);
         s.setIntParam(SoPlex::SIMPLIFIER, SoPlex::SIMPLIFIER_OFF);
         s.setIntParam(SoPlex::ITERLIMIT, k);
         load_real(s, t, 0);
         s.optimize();
         if(s.hasBasis())
         {
            std::pair<std::vector<SPxSolver::VarStatus>, std::vector<SPxSolver::VarStatus>> b(std::vector<SPxSolver::VarStatus>(t.m + 1), std::vector<SPxSolver::VarStatus>(t.n + 1));
            s.getBasis(b.first.data(), b.second.data());
            bases.push_back(b);
         }
         int nk = k + kp; kp = k; k = nk;
      }
   }
   c.count("planted_lp_x_filecfg");
   return run_basisfiles_core(t, &bases, sp.str(), "+planted", outside, names, cpx, c);
}

static uint64_t run_basisfiles_core(const TinyLP& t, const BasisList* given, const std::string& caseLP, const std::string& sigTag, int outside, int names, int cpx, Ctx& c)
{
   XLP x = t.exact();
   Classification cl;
   if(!given) cl = classify(x, false, true);
   int n = t.n, m = t.m;
   std::string cfgs = std::string(outside ? "lp-outside-solver" : "lp-in-solver") + "," + (names ? "user-names" : "default-names") + ",cpx=" + std::to_string(cpx) + sigTag;
   std::string cs = caseLP + "#" + std::to_string(outside) + "," + std::to_string(names) + "," + std::to_string(cpx);
   NameSet rn, cn;
   if(names) make_names(rn, cn, m, n);
   const NameSet* prn = names ? &rn : nullptr;
   const NameSet* pcn = names ? &cn : nullptr;
   std::string f = g_tmp + "/b" + std::to_string(getpid()) + ".bas";
   // the set of bases: index -1 = basis left by the solve, then all regular bases x placements
   BasisList bases;
   if(given) bases = *given;
   for(auto& basic : cl.regular)
   {
      std::vector<bool> isb(n + m, false);
      for(int k : basic) isb[k] = true;
      std::vector<int> nb;
      for(int k = 0; k < n + m; ++k) if(!isb[k]) nb.push_back(k);
      long total = 1;
      std::vector<std::array<int, 2>> opts(nb.size());
      std::vector<int> nopt(nb.size());
      for(size_t q = 0; q < nb.size(); ++q) { int o[2], no; nb_options(x.vlo(nb[q]), x.vup(nb[q]), o, no); opts[q] = {o[0], no > 1 ? o[1] : o[0]}; nopt[q] = no; total *= no; }
      for(long p = 0; p < total; ++p)
      {
         std::vector<SPxSolver::VarStatus> rs(m + 1, SPxSolver::BASIC), csx(n + 1, SPxSolver::BASIC);
         long r = p;
         for(size_t q = 0; q < nb.size(); ++q) { SPxSolver::VarStatus st = (SPxSolver::VarStatus)opts[q][r % nopt[q]]; r /= nopt[q]; if(nb[q] < n) csx[nb[q]] = st; else rs[nb[q] - n] = st; }
         bases.push_back({rs, csx});
      }
   }
   uint64_t h = 1;
   for(int b = -1; b < (int)bases.size(); ++b)
   {
      set_sub(b + 1);
      SoPlex spx;
      quiet(spx);
      load_real(spx, t, 0);
      if(outside || b < 0) spx.optimize();
      if(b >= 0) spx.setBasis(bases[b].first.data(), bases[b].second.data());
      if(!spx.hasBasis()) continue;
      std::vector<SPxSolver::VarStatus> rs(m + 1), csx(n + 1);
      spx.getBasis(rs.data(), csx.data());
      // what kind of statuses does this basis contain (part of the signature)
      bool hasUpperBoxed = false, hasZeroRow = false, hasZeroCol = false;
      for(int i = 0; i < m; ++i) if(rs[i] == SPxSolver::ZERO) hasZeroRow = true;
      for(int j = 0; j < n; ++j) { if(csx[j] == SPxSolver::ZERO) hasZeroCol = true; if(csx[j] == SPxSolver::ON_UPPER && t.lo[j] > -INF) hasUpperBoxed = true; }
      std::string kind = std::string(b < 0 ? "from-solve" : "from-setBasis") + (hasZeroRow ? "+nonbasic-free-row" : "") + (hasZeroCol ? "+nonbasic-free-col" : "");
      if(!spx.writeBasisFile(f.c_str(), prn, pcn, cpx != 0)) { c.violation("write-failed@" + cfgs, cs, ""); continue; }
      c.count("basis_files_written");
      if(hasUpperBoxed) c.count("bases_with_boxed_col_at_upper");
      if(hasZeroCol) c.count("bases_with_nonbasic_free_col");
      if(hasZeroRow) c.count("bases_with_nonbasic_free_row");
      for(int target = 0; target < 2; ++target)
      {
         SoPlex fresh;
         SoPlex* dst = &spx;
         if(target == 1) { quiet(fresh); load_real(fresh, t, 0); dst = &fresh; }
         else spx.clearBasis();
         bool ok = dst->readBasisFile(f.c_str(), prn, pcn);
         std::string tgt = target ? "new-object" : "same-object";
         if(!ok) { c.violation("read-failed:" + kind + "@" + cfgs + "," + tgt, cs, "readBasisFile rejected a file written by writeBasisFile; basis rows " + stat_str(rs, m) + " cols " + stat_str(csx, n)); continue; }
         if(!dst->hasBasis()) { c.violation("no-basis-after-read:" + kind + "@" + cfgs + "," + tgt, cs, ""); continue; }
         std::vector<SPxSolver::VarStatus> r2(m + 1), c2(n + 1);
         dst->getBasis(r2.data(), c2.data());
         c.count("basis_files_read");
         std::string diff;
         for(int i = 0; i < m && diff.empty(); ++i) if(!same_status(r2[i], rs[i], t.lhs[i], t.rhs[i])) diff = "row " + std::to_string(i) + ": written " + std::to_string((int)rs[i]) + " read " + std::to_string((int)r2[i]);
         for(int j = 0; j < n && diff.empty(); ++j) if(!same_status(c2[j], csx[j], t.lo[j], t.up[j])) diff = "col " + std::to_string(j) + ": written " + std::to_string((int)csx[j]) + " read " + std::to_string((int)c2[j]);
         if(!diff.empty())
         {
            bool rowdiff = diff[0] == 'r';
            c.violation(std::string("statuses-not-restored:") + (rowdiff ? "row" : "col") + ":" + kind + "@" + cfgs + "," + tgt, cs,
                        diff + " | written rows " + stat_str(rs, m) + " cols " + stat_str(csx, n) + " read rows " + stat_str(r2, m) + " cols " + stat_str(c2, n));
            h = h * 31 + 3;
         }
      }
   }
   unlink(f.c_str());
   c.count("lp_x_filecfg");
   if(c.wantSample() && bases.size() > 3) c.sample("{\"lp\":" + (given ? jstr(caseLP) : t.json()) + ",\"file_config\":" + jstr(cfgs) + ",\"valid_bases_written_and_read\":" + std::to_string(bases.size() + 1) + "}");
   return h;
}

// (2)
static std::string params_digest(SoPlex& s)
{
   std::ostringstream o;
   o.precision(17);
   for(int k = 0; k < SoPlex::BOOLPARAM_COUNT; ++k) o << (s.boolParam((SoPlex::BoolParam)k) ? 1 : 0);
   for(int k = 0; k < SoPlex::INTPARAM_COUNT; ++k) { if(k == SoPlex::OBJSENSE) continue; o << "," << s.intParam((SoPlex::IntParam)k); }   // sense: compared with the LP (MPS normalisation)
   for(int k = 0; k < SoPlex::REALPARAM_COUNT; ++k) { if(k == SoPlex::OBJ_OFFSET) continue; o << "," << s.realParam((SoPlex::RealParam)k); }
   return o.str();
}
static uint64_t run_state(const TinyLP& t, const ConfigSpace::Cfg& cfg, bool rational, int names, Ctx& c)
{
   XLP x = t.exact();
   Classification cl = classify(x);
   int n = t.n, m = t.m;
   std::string cfgs = g_cs.str(cfg) + (rational ? ",rational" : ",real") + (names ? ",user-names" : ",default-names");
   std::string cs = t.str() + "#" + g_cs.str(cfg) + "#" + std::to_string((int)rational) + "," + std::to_string(names);
   NameSet rn, cn;
   if(names) make_names(rn, cn, m, n);
   SoPlex spx;
   quiet(spx);
   g_cs.apply(spx, cfg);
   if(rational) { spx.setIntParam(SoPlex::SYNCMODE, SoPlex::SYNCMODE_AUTO); spx.setIntParam(SoPlex::READMODE, SoPlex::READMODE_RATIONAL); }
   spx.setIntParam(SoPlex::ITERLIMIT, 7777);        // a second non-default parameter that does not influence these solves
   load_real(spx, t, 0);
   int st = (int)spx.optimize();
   double obj = spx.objValueReal();
   std::string base = g_tmp + "/s" + std::to_string(getpid());
   bool hasFreeRow = false;
   for(int i = 0; i < m; ++i) if(t.lhs[i] <= -INF && t.rhs[i] >= INF) hasFreeRow = true;
   try
   {
      if(rational) spx.writeStateRational(base.c_str(), names ? &rn : nullptr, names ? &cn : nullptr, false, true);
      else spx.writeStateReal(base.c_str(), names ? &rn : nullptr, names ? &cn : nullptr, false, true);
   }
   catch(const SPxException& e)
   {
      std::string w = e.what();
      c.violation("state:write-throws:" + w.substr(0, w.find(' ')) + (hasFreeRow ? "+lp-has-free-row" : "") + "@" + cfgs, cs, w);
      for(const char* e2 : {".mps", ".bas", ".set"}) unlink((base + e2).c_str());
      return 9;
   }
   c.count("states_written");
   auto cleanup = [&]() { for(const char* e : {".mps", ".bas", ".set"}) unlink((base + e).c_str()); };
   SoPlex nu;
   quiet(nu);
   if(!nu.loadSettingsFile((base + ".set").c_str())) { c.violation("state:settings-file-rejected@" + cfgs, cs, ""); cleanup(); return 1; }
   quiet(nu);
   NameSet rn2, cn2;
   if(!nu.readFile((base + ".mps").c_str(), &rn2, &cn2)) { c.violation("state:lp-file-rejected@" + cfgs, cs, ""); cleanup(); return 1; }
   // parameters (verbosity is forced quiet on both sides)
   {
      quiet(spx);
      std::string a = params_digest(spx), b = params_digest(nu);
      if(a != b)
      {
         size_t p = 0;
         while(p < a.size() && p < b.size() && a[p] == b[p]) ++p;
         c.violation("state:parameters-not-restored@" + cfgs, cs, "first difference at digest position " + std::to_string(p) + ": saved ..." + a.substr(p > 20 ? p - 20 : 0, 60) + " restored ..." + b.substr(p > 20 ? p - 20 : 0, 60));
      }
   }
   // LP under the MPS normalisations: maximisation may come back as minimisation of the negated objective
   {
      Model mo = Model::from(t);
      Model flipped = mo;
      flipped.maximize = !mo.maximize;
      for(auto& v : flipped.c) v = -v;
      flipped.offset = -mo.offset;
      bool senseKept = (nu.intParam(SoPlex::OBJSENSE) == SoPlex::OBJSENSE_MAXIMIZE) == mo.maximize;
      Model& want = senseKept ? mo : flipped;
      // objective offset: compared separately (the dense model check looks at the parameter)
      double off = nu.realParam(SoPlex::OBJ_OFFSET);
      Model w2 = want;
      w2.offset = off;
      std::string d = compare_real(nu, w2);
      if(!d.empty()) c.violation(std::string("state:lp-not-restored:") + d.substr(0, d.find_first_of(" [(")) + "@" + cfgs, cs, d);
      if(off != want.offset) c.count("observation.objective_offset_not_in_state_files");
      if(!senseKept) c.count("observation.max_written_as_min");
   }
   bool basisOk = false;
   if(spx.hasBasis())
   {
      // the LP file was read with its own names; the basis file uses the same names
      if(!nu.readBasisFile((base + ".bas").c_str(), &rn2, &cn2)) c.violation("state:basis-file-rejected@" + cfgs, cs, "");
      else
      {
         std::vector<SPxSolver::VarStatus> rs(m + 1), csx(n + 1), r2(m + 1), c2(n + 1);
         spx.getBasis(rs.data(), csx.data());
         nu.getBasis(r2.data(), c2.data());
         std::string diff;
         for(int i = 0; i < m && diff.empty(); ++i) if(!same_status(r2[i], rs[i], t.lhs[i], t.rhs[i])) diff = "row " + std::to_string(i);
         for(int j = 0; j < n && diff.empty(); ++j) if(!same_status(c2[j], csx[j], t.lo[j], t.up[j])) diff = "col " + std::to_string(j);
         bool zr = false;
         for(int i = 0; i < m; ++i) if(rs[i] == SPxSolver::ZERO) zr = true;
         if(!diff.empty()) c.violation(std::string("state:basis-not-restored") + (zr ? "+nonbasic-free-row" : "") + "@" + cfgs, cs, diff + " | saved rows " + stat_str(rs, m) + " cols " + stat_str(csx, n) + " restored rows " + stat_str(r2, m) + " cols " + stat_str(c2, n));
         else basisOk = true;
      }
   }
   // the restored solver reaches the same status and value
   {
      bool wsFree = false;
      if(nu.hasBasis()) { std::vector<SPxSolver::VarStatus> r2(m + 1), c2(n + 1); nu.getBasis(r2.data(), c2.data()); for(int i = 0; i < m; ++i) if(r2[i] == SPxSolver::ZERO) wsFree = true; }
      int st2 = (int)nu.optimize();
      double obj2 = nu.objValueReal();
      c.count("restored_solves");
      if(basisOk && st2 == 1) c.count("observation.restored_iterations", nu.numIterations());
      bool senseKept = (nu.intParam(SoPlex::OBJSENSE) == SoPlex::OBJSENSE_MAXIMIZE) == t.maximize;
      double off2 = nu.realParam(SoPlex::OBJ_OFFSET);
      // compare objective without the offsets (whether the offset travels with the state is recorded above)
      double v1 = obj - t.offset, v2 = (obj2 - off2) * (senseKept ? 1 : -1);
      if(st2 != st || (st == 1 && fabs(v1 - v2) > 1e-6 * (1 + fabs(v1))))
         c.violation(std::string("state:restored-solve-differs") + (wsFree ? "+warmstart-with-nonbasic-free-row" : "") + "@" + cfgs, cs,
                     "saved status " + std::to_string(st) + " obj-offset " + TinyLP::num(v1) + ", restored status " + std::to_string(st2) + " obj-offset " + TinyLP::num(v2) + " (exact class " + cl.name() + ")");
   }
   cleanup();
   return st;
}

int main(int argc, char** argv)
{
   Args args = parse_args(argc, argv);
   args.prop = "C14";
   g_cs = ConfigSpace::algorithmic();
   g_tmp = args.outdir;
   auto cfg1 = g_cs.upto(1);
   if(!args.replay.empty())
   {
      std::ifstream in(args.replay);
      std::string doc((std::istreambuf_iterator<char>(in)), std::istreambuf_iterator<char>());
      size_t p = doc.find("\"case\": \"");
      if(p == std::string::npos) { printf("REPLAY-ERROR no case\n"); return 2; }
      p += 9;
      std::string cs = doc.substr(p, doc.find('"', p) - p);
      auto parts = split(cs, '#');
      mallopt(M_PERTURB, 85);
      PlantedSpec psp;
      if(cs.compare(0, 2, "P:") == 0 && PlantedSpec::parse(parts[0], psp) && parts.size() == 2)
      {
         int a = 0, b = 0, d = 0;
         sscanf(parts[1].c_str(), "%d,%d,%d", &a, &b, &d);
         return replay_case([&](Ctx & c) { run_planted14(psp, a, b, d, c); });
      }
      TinyLP t = TinyLP::parse(parts[0]);
      if(parts.size() == 2)
      {
         int a = 0, b = 0, d = 0;
         sscanf(parts[1].c_str(), "%d,%d,%d", &a, &b, &d);
         return replay_case([&](Ctx & c) { run_basisfiles(t, a, b, d, c); });
      }
      ConfigSpace::Cfg cfg = g_cs.parse(parts[1]);
      int r = 0, nm = 0;
      sscanf(parts[2].c_str(), "%d,%d", &r, &nm);
      return replay_case([&](Ctx & c) { run_state(t, cfg, r != 0, nm, c); });
   }
   bool thorough = args.tier == "thorough";
   Report rep(args, "exploration", thorough ? 3000 : 400);
   FamilySet fs;
   fs.add(famQ());
   fs.add(famT(3, 2, {-1, 0, 1, 2}, {-1, 1}, {0, 1, 3, 4}, {0, 2, 3, 4}, 4));
   uint64_t stride = fs.total / (thorough ? 40000 : 2500) + 1;
   RunOpts o = rep.opts();
   o.perturb = {85};
   auto lpAt = [&](uint64_t k, uint64_t str, TinyLP & t) -> bool
   {
      uint64_t raw = k * str, lim = std::min<uint64_t>(raw + str, fs.total);
      while(raw < lim && !fs.get(raw, t)) ++raw;
      return raw < lim;
   };
   rep.phase("basis files: LP x every valid basis x names x format x writer branch", (fs.total / stride) * 8, [&](uint64_t idx, int, Ctx & c) -> uint64_t
   {
      TinyLP t;
      if(!lpAt(idx / 8, stride, t)) return 0;
      int k = int(idx % 8);
      return run_basisfiles(t, k & 1, (k >> 1) & 1, (k >> 2) & 1, c);
   }, [&](uint64_t idx, uint64_t) { TinyLP t; lpAt(idx / 8, stride, t); int k = int(idx % 8); return t.str() + "#" + std::to_string(k & 1) + "," + std::to_string((k >> 1) & 1) + "," + std::to_string((k >> 2) & 1); }, o,
   [&](uint64_t idx, uint64_t) { int k = int(idx % 8); return std::string("@") + ((k & 1) ? "lp-outside-solver" : "lp-in-solver") + "," + (((k >> 1) & 1) ? "user-names" : "default-names") + ",cpx=" + std::to_string((k >> 2) & 1); });
   uint64_t stride2 = fs.total / (thorough ? 6000 : 400) + 1;
   uint64_t NC = cfg1.size() * 4;
   {
      static PlantedGrid pg;
      pg.sizes = {{6, 5}, {10, 8}, {8, 12}, {16, 12}, {12, 20}, {24, 24}};
      pg.densities = {40};
      pg.seeds = thorough ? 6 : 1;
      pg.kinds = 4;
      rep.phase("basis files: planted LPs up to 24x24 x bases of iteration-limited solves x names x format x writer branch", pg.size() * 8, [&](uint64_t idx, int, Ctx & c) -> uint64_t
      {
         int k = int(idx % 8);
         return run_planted14(pg.at(idx / 8), k & 1, (k >> 1) & 1, (k >> 2) & 1, c);
      }, [&](uint64_t idx, uint64_t) { int k = int(idx % 8); return pg.at(idx / 8).str() + "#" + std::to_string(k & 1) + "," + std::to_string((k >> 1) & 1) + "," + std::to_string((k >> 2) & 1); }, o);
      rep.extra["planted_grid"] = jstr("sizes (n x m) 6x5 10x8 8x12 16x12 12x20 24x24, density 40 %, degenerate 0/1, min/max, kinds OPT/INF/UNB/COV, seeds 0.." + std::to_string(pg.seeds - 1));
   }
   rep.phase("state files: LP x dev<=1 x real/rational x names", (fs.total / stride2) * NC, [&](uint64_t idx, int, Ctx & c) -> uint64_t
   {
      TinyLP t;
      if(!lpAt(idx / NC, stride2, t)) return 0;
      uint64_t k = idx % NC;
      return run_state(t, cfg1[k / 4], (k & 1) != 0, int((k >> 1) & 1), c);
   }, [&](uint64_t idx, uint64_t) { TinyLP t; lpAt(idx / NC, stride2, t); uint64_t k = idx % NC; return t.str() + "#" + g_cs.str(cfg1[k / 4]) + "#" + std::to_string(k & 1) + "," + std::to_string((k >> 1) & 1); }, o,
   [&](uint64_t idx, uint64_t) { uint64_t k = idx % NC; return "@" + g_cs.str(cfg1[k / 4]); });
   {
      // (2b) the same round trip on LPs that make the writers take their other branches: an appended empty boxed column with zero cost (only written because
      // writeState passes writeZeroObjective = true) and one row multiplied by 8 (the LP in the solver is really scaled after the solve, so the writer works on an
      // unscaled copy); default configuration and simplifier off
      static std::vector<ConfigSpace::Cfg> cfgB;
      cfgB = {g_cs.parse("default"), g_cs.parse("simplifier=0"), g_cs.parse("scaler=0")};
      auto shaped = [&](uint64_t k, TinyLP & t) -> bool
      {
         if(!lpAt(k, stride2, t)) return false;
         for(int i = 0; i < t.m; ++i) t.A[i].push_back(0.0);
         t.c.push_back(0.0); t.lo.push_back(0.0); t.up.push_back(5.0); t.n += 1;
         if(t.m > 0) { for(int j = 0; j < t.n; ++j) t.A[0][j] *= 8; if(t.lhs[0] > -INF) t.lhs[0] *= 8; if(t.rhs[0] < INF) t.rhs[0] *= 8; }
         return true;
      };
      uint64_t NB = cfgB.size() * 4;
      rep.phase("state files: LPs with an empty zero-cost column and a scaled row x {default, no simplifier, no scaler} x real/rational x names", (fs.total / stride2) * NB, [&](uint64_t idx, int, Ctx & c) -> uint64_t
      {
         TinyLP t;
         if(!shaped(idx / NB, t)) return 0;
         uint64_t k = idx % NB;
         return run_state(t, cfgB[k / 4], (k & 1) != 0, int((k >> 1) & 1), c);
      }, [&](uint64_t idx, uint64_t) { TinyLP t; shaped(idx / NB, t); uint64_t k = idx % NB; return t.str() + "#" + g_cs.str(cfgB[k / 4]) + "#" + std::to_string(k & 1) + "," + std::to_string((k >> 1) & 1); }, o,
      [&](uint64_t idx, uint64_t) { uint64_t k = idx % NB; return "@" + g_cs.str(cfgB[k / 4]) + "+empty-zero-cost-column"; });
   }
   auto& C = rep.all.counters;
   rep.evaluations = C["basis_files_read"] + C["states_written"];
   rep.rule = "(1) every stride-th canonical LP x {LP in the solver, LP outside} x {default, user names} x cpxFormat x (basis from the solve + every regular basis x every nonbasic placement): "
              "write, read into the same and a new object; (2) LP x every configuration with <=1 deviation x {real, rational state} x names; non-trivial = basis files read back plus states written";
   rep.assumptions = {"status equality up to FIXED marking of variables with equal bounds", "MPS normalisation accepted: a maximisation problem may be restored as minimisation of the negated objective; whether the objective offset travels with the state is recorded as an observation"};
   rep.finish(C["basis_files_read"] + C["states_written"]);
   return 0;
}
